"""C14 adapter: drives a REAL twisted.internet.abstract.FileDescriptor (subclass that only supplies
writeSomeData with scripted, adversarial partial acceptance) on a fake reactor that records
addWriter/removeWriter, with recording producers, and logs what is observable, in program order:

  calls (begin .. end, nested when a producer callback calls back into the transport)
      write n | writeseq ns | reg kind | unreg | lose | losew | ppause | presume | dowrite | lost
      end of=<call> r=<ok | EXC:cls | none/done/lost for dowrite>
  effects
      wsd off len acc contig   bytes offered to the OS: they are the slice [off, off+len) of the stream of all bytes
                               ever passed to write/writeSequence (contig = the offered bytes are exactly that slice;
                               off = -1 when the first bytes are found nowhere), acc = count accepted (-1: error returned)
      pause | resume | pstop   calls on the registered producer
      addw | rmw               the reactor's writer set gained / lost the descriptor
      wclose                   the write side was shut down (_closeWriteConnection)
      closed                   connectionLost completed

Payload bytes are seeded pseudo-random, so a slice of >= 16 bytes identifies its position; shorter
offers are located by trying the position right after the last accepted byte first, then searching.
Nothing here decides a verdict.

op vocabulary:
  ["write", n] ["writeseq", [n1, n2, ..]] ["reg", "push"|"pull", script] ["unreg"] ["lose"] ["losew"]
  ["ppause"] ["presume"]
  ["dowrite", mode, x]    the reactor calls doWrite (only if the descriptor is in the writer set and connected);
                          writeSomeData accepts: mode "all" -> everything, "zero" -> 0, "abs" -> min(x, len),
                          "frac" -> len * x // 8, "err" -> returns CONNECTION_LOST
  script (producer): list of actions taken at successive resumeProducing calls:
                          ["w", n] write n bytes | ["ws", [..]] writeSequence | ["fin"] unregister + loseConnection | ["-"] nothing
cfg: {"bufferSize": B, "sendLimit": L}
"""
import random


class Env:
    def __init__(self, cfg, seed=0):
        from twisted.internet import abstract, main

        env = self
        self.cfg = cfg
        self.main = main
        self.ev = []
        self.stack = []
        self.A = bytearray()          # every byte ever passed to write/writeSequence, in call order
        self.handed = 0               # bytes the OS accepted so far (locating short offers only)
        self.rng = random.Random(seed)
        self.accept = ("all", 0)
        self.writers = set()
        self.producer = None

        class Reactor:
            def addWriter(self, fd):
                if fd not in env.writers:
                    env.writers.add(fd)
                    env.log({"e": "addw"})

            def removeWriter(self, fd):
                if fd in env.writers:
                    env.writers.discard(fd)
                    env.log({"e": "rmw"})

            def addReader(self, fd):
                pass

            def removeReader(self, fd):
                pass

        class FD(abstract.FileDescriptor):
            connected = 1

            def writeSomeData(self, data):
                data = bytes(data)
                n = len(data)
                mode, x = env.accept
                if mode == "all":
                    k = n
                elif mode == "zero":
                    k = 0
                elif mode == "abs":
                    k = min(x, n)
                elif mode == "frac":
                    k = n * x // 8
                else:
                    k = -1
                off, contig = env.locate(data)
                env.log({"e": "wsd", "off": off, "len": n, "acc": k, "contig": contig})
                if k < 0:
                    return main.CONNECTION_LOST
                env.handed = (off if off >= 0 else env.handed) + k if n else env.handed
                return k

            def _closeWriteConnection(self):
                env.log({"e": "wclose"})

            def connectionLost(self, reason):
                abstract.FileDescriptor.connectionLost(self, reason)
                env.log({"e": "closed"})

            def fileno(self):
                return 7

        self.reactor = Reactor()
        self.fd = FD(self.reactor)
        self.fd.bufferSize = cfg["bufferSize"]
        self.fd.SEND_LIMIT = cfg["sendLimit"]

    # ---- logging
    def log(self, e):
        self.ev.append(e)

    def locate(self, data):
        n = len(data)
        if n == 0:
            return 0, True
        A = self.A
        if bytes(A[self.handed:self.handed + n]) == data:
            return self.handed, True
        probe = data[:32]
        off = A.find(probe)
        if off < 0:
            return -1, False
        return off, bytes(A[off:off + n]) == data

    def begin(self, name, **kw):
        e = {"e": name, "d": len(self.stack)}
        e.update(kw)
        self.log(e)
        self.stack.append(name)

    def end(self, name, r="ok"):
        self.stack.pop()
        self.log({"e": "end", "of": name, "r": r, "d": len(self.stack)})

    def call(self, name, fn, **kw):
        self.begin(name, **kw)
        r = "ok"
        try:
            fn()
        except BaseException as x:
            r = "EXC:" + type(x).__name__
        self.end(name, r)

    def payload(self, n):
        b = self.rng.randbytes(n)
        self.A += b
        return b

    # ---- transport calls (top level or from producer callbacks)
    def do_write(self, n):
        b = self.payload(n)
        self.call("write", lambda: self.fd.write(b), n=n)

    def do_writeseq(self, ns):
        bs = [self.payload(n) for n in ns]
        self.call("writeseq", lambda: self.fd.writeSequence(bs), ns=list(ns))

    def do_unreg(self):
        def f():
            self.fd.unregisterProducer()
        self.call("unreg", f)

    def do_lose(self):
        self.call("lose", self.fd.loseConnection)

    def make_producer(self, kind, script):
        env = self

        class P:
            def __init__(self):
                self.script = [list(a) for a in script]

            def resumeProducing(self):
                env.log({"e": "resume"})
                if self.script:
                    a = self.script.pop(0)
                    if a[0] == "w":
                        env.do_write(a[1])
                    elif a[0] == "ws":
                        env.do_writeseq(a[1])
                    elif a[0] == "fin":
                        env.do_unreg()
                        env.do_lose()

            def pauseProducing(self):
                env.log({"e": "pause"})

            def stopProducing(self):
                env.log({"e": "pstop"})
        return P()

    def step(self, op):
        """One top-level op.  Returns False when it is not applicable (dowrite without a registered, connected writer)."""
        k = op[0]
        fd = self.fd
        if k == "write":
            self.do_write(op[1])
        elif k == "writeseq":
            self.do_writeseq(op[1])
        elif k == "reg":
            p = self.make_producer(op[1], op[2] if len(op) > 2 else [])
            self.call("reg", lambda: fd.registerProducer(p, op[1] == "push"), r=op[1])
        elif k == "unreg":
            self.do_unreg()
        elif k == "lose":
            self.do_lose()
        elif k == "losew":
            self.call("losew", fd.loseWriteConnection)
        elif k == "ppause":
            self.call("ppause", fd.pauseProducing)
        elif k == "presume":
            self.call("presume", fd.resumeProducing)
        elif k == "dowrite":
            if fd not in self.writers or not fd.connected:
                return False
            self.accept = (op[1], op[2] if len(op) > 2 else 0)
            self.begin("dowrite")
            res = "none"
            why = None
            try:
                why = fd.doWrite()
                if why is not None:
                    res = "done" if why is self.main.CONNECTION_DONE else "lost" if why is self.main.CONNECTION_LOST else "other"
            except BaseException as x:
                res = "EXC:" + type(x).__name__
            self.end("dowrite", res)
            if why is not None:
                # what every reactor does with a non-None doWrite result (_disconnectSelectable)
                from twisted.python.failure import Failure

                def lost():
                    self.reactor.removeWriter(fd)
                    fd.connectionLost(Failure(why))
                self.call("lost", lost)
        else:
            raise ValueError(op)
        return True


def run_history(cfg, ops, seed=0):
    env = Env(cfg, seed)
    done = []
    for op in ops:
        if env.step(op):
            done.append(op)
    return {"cfg": cfg, "ops": done, "ev": env.ev, "seed": seed}
