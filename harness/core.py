"""Core of the verification harness: context object, TLC runners, evidence, verdicts.

Every property module (harness/props/cNN.py) exposes

    META   = dict(id=..., title=..., specs=[...], technique=..., level_text=..., level_note=..., design_ref=...)
    run(ctx)             -- performs the check, reporting through ctx
    replay(ctx, obj)     -- optional: re-run one stored failing history

Verdicts: ctx.violation(...) is called only when TLC rejected an execution of the
real code (or a TLC counterexample of the design spec reproduced on the real code).
Machinery failures raise MachineryError -> exit code 2.
"""
from __future__ import annotations

import hashlib
import json
import os
import random
import re
import shutil
import subprocess
import sys
import time
import uuid
from dataclasses import dataclass, field

VERIF = os.path.dirname(os.path.dirname(os.path.abspath(__file__)))
REPO = os.environ.get("VERIF_REPO", "/repo")
SPECS = os.path.join(VERIF, "specs")
EVDIR = os.environ.get("VERIF_EVIDENCE_DIR") or os.path.join(VERIF, "evidence")
TLA_JAR = "/opt/veriftools/tla/tla2tools.jar"
TLA_DEPS = "/opt/veriftools/tla/CommunityModules-deps.jar"
NCPU = os.cpu_count() or 4


class MachineryError(Exception):
    pass


def use_repo():
    """Make `import twisted` resolve to REPO/src and verify it."""
    src = os.path.join(REPO, "src")
    if src not in sys.path:
        sys.path.insert(0, src)
    for m in list(sys.modules):
        if m == "twisted" or m.startswith("twisted."):
            f = getattr(sys.modules[m], "__file__", None) or ""
            if f and not f.startswith(src):
                del sys.modules[m]
    import twisted

    if not os.path.realpath(twisted.__file__).startswith(os.path.realpath(src)):
        raise MachineryError("twisted imported from %s, not %s" % (twisted.__file__, src))
    return src


# --------------------------------------------------------------------------- TLC

_STATES_RE = re.compile(r"(\d+) states generated, (\d+) distinct states found, (\d+) states left on queue")
_SIM_RE = re.compile(r"The number of states generated: (\d+)")


@dataclass
class TlcResult:
    ok: bool
    generated: int = 0
    distinct: int = 0
    out: str = ""
    error: str = ""          # first "Error:" paragraph, '' when ok
    wall: float = 0.0
    coverage: dict = field(default_factory=dict)
    prints: list = field(default_factory=list)   # PrintT'ed lines (raw)
    kind: str = ""           # '', 'invariant', 'property', 'deadlock', 'postcondition', 'assert', 'other'
    cex: list = field(default_factory=list)      # counterexample states (raw text blocks)


def _java_cmd(extra_props=()):
    cmd = ["java", "-XX:+UseParallelGC", "-Xss16m", "-Xmx" + os.environ.get("VERIF_TLC_XMX", "8g"), "-DTLA-Library=" + os.path.join(SPECS, "lib")]
    cmd += list(extra_props)
    cmd += ["-cp", TLA_JAR + ":" + TLA_DEPS, "tlc2.TLC"]
    return cmd


def run_tlc(module, cfg, workdir, workers=None, env=None, args=(), timeout=3600, props=(), cwd=None):
    """Run TLC on SPECS/<module>.tla with SPECS/<cfg>.  Returns TlcResult (never raises on
    property violation; raises MachineryError when TLC itself failed to run/parse)."""
    os.makedirs(workdir, exist_ok=True)
    meta = os.path.join(workdir, "meta-%d-%s" % (os.getpid(), uuid.uuid4().hex[:12]))
    cmd = _java_cmd(props) + [
        "-metadir", meta, "-noGenerateSpecTE",
        "-workers", str(workers or os.environ.get("VERIF_TLC_WORKERS") or "auto"),
        "-config", cfg,
    ] + list(args) + [module]
    e = dict(os.environ)
    e.pop("JAVA_TOOL_OPTIONS", None)
    if env:
        e.update({k: str(v) for k, v in env.items()})
    t0 = time.time()
    try:
        p = subprocess.run(cmd, cwd=cwd or SPECS, env=e, capture_output=True, text=True, timeout=timeout)
    except subprocess.TimeoutExpired as ex:
        shutil.rmtree(meta, ignore_errors=True)
        out = (ex.stdout or b"")
        if isinstance(out, bytes):
            out = out.decode("utf8", "replace")
        r = TlcResult(ok=False, out=out, error="TIMEOUT after %ss" % timeout, kind="timeout", wall=time.time() - t0)
        _fill_counts(r)
        return r
    finally:
        pass
    shutil.rmtree(meta, ignore_errors=True)
    out = p.stdout + ("\n" + p.stderr if p.stderr.strip() else "")
    r = TlcResult(ok=False, out=out, wall=time.time() - t0)
    _fill_counts(r)
    r.prints = [ln for ln in p.stdout.splitlines() if ln.startswith("<<") or ln.startswith('"')]
    if "Model checking completed. No error has been found." in out or (
        "Finished computing initial states" in out and "Error" not in out and p.returncode == 0
    ) or (p.returncode == 0 and "Error:" not in out):
        r.ok = True
        r.coverage = _parse_coverage(out)
        return r
    m = re.search(r"Error: (.*?)(?:\n\n|\nState |\Z)", out, re.S)
    r.error = (m.group(1).strip() if m else out[-2000:])
    el = r.error.lower()
    if "invariant" in el and "violated" in el:
        r.kind = "invariant"
    elif "deadlock" in el:
        r.kind = "deadlock"
    elif "temporal properties were violated" in el or "action property" in el or "property" in el and "violated" in el:
        r.kind = "property"
    elif "postcondition" in el or "post condition" in el:
        r.kind = "postcondition"
    elif "assert" in el:
        r.kind = "assert"
    else:
        r.kind = "other"
    r.cex = re.findall(r"^State \d+:.*?(?=^State \d+:|\Z|^\d+ states generated)", out, re.S | re.M)
    r.coverage = _parse_coverage(out)
    return r


def _fill_counts(r):
    ms = _STATES_RE.findall(r.out)
    if ms:
        g, d, _ = ms[-1]
        r.generated, r.distinct = int(g), int(d)
    else:
        m = _SIM_RE.search(r.out)
        if m:
            r.generated = r.distinct = int(m.group(1))


def _parse_coverage(out):
    """Parse the last `-coverage` block: <Name line .. of module M>: distinct:generated.
    Parameterised disjuncts of Next are reported as <Next ... (l1 c1 l2 c2)>; they are
    renamed after the first operator applied inside that span."""
    cov = {}
    k = out.rfind("The coverage statistics at")
    if k >= 0:
        out = out[k:]
    for m in re.finditer(r"^<(\w+) line \d+, col \d+ to line \d+, col \d+ of module (\w+)(?: \((\d+) (\d+) (\d+) (\d+)\))?>: (\d+):(\d+)", out, re.M):
        name, mod, gen = m.group(1), m.group(2), int(m.group(8))
        if m.group(3) and name.endswith("Next"):
            try:
                with open(os.path.join(SPECS, mod + ".tla")) as f:
                    lines = f.read().split("\n")
                l1, c1, l2, c2 = (int(m.group(i)) for i in (3, 4, 5, 6))
                span = "\n".join(lines[l1 - 1:l2])
                span = span[c1 - 1:]
                span = re.sub(r'"[^"]*"', '""', span)
                defined = set(re.findall(r"^([A-Za-z_]\w*)(?:\([^)]*\))?\s*==", "\n".join(lines), re.M))
                cands = [c for c in re.findall(r"([A-Za-z_]\w*)\s*(?:\(|$|\n|/\\|\\/)", span) if c in defined]
                after_colon = [c for c in re.findall(r":\s*\(?\s*([A-Za-z_]\w*)", span) if c in defined]
                if after_colon:
                    name = after_colon[-1]      # \E x \in S(..) : Action(x)
                elif cands:
                    name = cands[0]
                else:
                    mm = re.search(r":\s*\(?\s*([A-Za-z_]\w*)", span) or re.search(r"([A-Z]\w*)\(", span)
                    if mm:
                        name = mm.group(1)
            except OSError:
                pass
        cov[name] = cov.get(name, 0) + gen
    return cov


def sany(module):
    cmd = ["java", "-DTLA-Library=" + os.path.join(SPECS, "lib"), "-cp", TLA_JAR + ":" + TLA_DEPS, "tla2sany.SANY", module]
    p = subprocess.run(cmd, cwd=SPECS, capture_output=True, text=True)
    ok = p.returncode == 0 and "error" not in p.stdout.lower().replace("semantic errors:\n\n", "")
    return ok, p.stdout + p.stderr


def parse_tla_value(s):
    """Parse a printed TLA+ value (tuples, sets, records, strings, ints, booleans) to Python.
    Sets -> list, records -> dict, functions (a :> b @@ ...) -> dict."""
    pos = 0
    n = len(s)

    def ws():
        nonlocal pos
        while pos < n and s[pos] in " \t\r\n":
            pos += 1

    def val():
        nonlocal pos
        ws()
        if s.startswith("<<", pos):
            pos += 2
            items = seq(">>")
            return items
        if s[pos] == "{":
            pos += 1
            return seq("}")
        if s[pos] == "[":
            pos += 1
            d = {}
            ws()
            if s[pos] == "]":
                pos += 1
                return d
            while True:
                ws()
                m = re.compile(r"\w+").match(s, pos)
                k = m.group(0)
                pos = m.end()
                ws()
                assert s.startswith("|->", pos), s[pos:pos + 20]
                pos += 3
                d[k] = val()
                ws()
                if s[pos] == ",":
                    pos += 1
                    continue
                assert s[pos] == "]", s[pos:pos + 20]
                pos += 1
                return d
        if s[pos] == '"':
            pos += 1
            out = []
            while s[pos] != '"':
                if s[pos] == "\\":
                    pos += 1
                    c = s[pos]
                    out.append({"n": "\n", "t": "\t", "r": "\r", "f": "\f"}.get(c, c))
                else:
                    out.append(s[pos])
                pos += 1
            pos += 1
            return "".join(out)
        if s[pos] == "(":
            # function printed as (a :> b @@ c :> d)
            pos += 1
            d = {}
            while True:
                k = val()
                ws()
                assert s.startswith(":>", pos), s[pos:pos + 20]
                pos += 2
                v = val()
                d[k if not isinstance(k, list) else tuple(k)] = v
                ws()
                if s.startswith("@@", pos):
                    pos += 2
                    continue
                assert s[pos] == ")", s[pos:pos + 20]
                pos += 1
                return d
        m = re.compile(r"-?\d+").match(s, pos)
        if m:
            pos = m.end()
            return int(m.group(0))
        m = re.compile(r"\w+").match(s, pos)
        if m:
            pos = m.end()
            w = m.group(0)
            return True if w == "TRUE" else False if w == "FALSE" else w
        raise ValueError("cannot parse TLA value at %r" % s[pos:pos + 40])

    def seq(close):
        nonlocal pos
        items = []
        ws()
        if s.startswith(close, pos):
            pos += len(close)
            return items
        while True:
            items.append(val())
            ws()
            if s[pos] == ",":
                pos += 1
                continue
            assert s.startswith(close, pos), s[pos:pos + 20]
            pos += len(close)
            return items

    v = val()
    return v


def extract_printed(out, tag):
    """Find every PrintT'ed tuple << "tag", ... >> in TLC output (possibly pretty-printed over
    several lines) and return the parsed values."""
    vals = []
    for m in re.finditer(r'^<<\s*"%s"' % re.escape(tag), out, re.M):
        i = m.start()
        depth = 0
        j = i
        instr = False
        while j < len(out):
            c = out[j]
            if instr:
                if c == "\\":
                    j += 1
                elif c == '"':
                    instr = False
            elif c == '"':
                instr = True
            elif out.startswith("<<", j):
                depth += 1
                j += 1
            elif out.startswith(">>", j):
                depth -= 1
                j += 1
                if depth == 0:
                    break
            j += 1
        vals.append(parse_tla_value(out[i:j + 1]))
    return vals


# --------------------------------------------------------------------------- known findings

def load_known(pid):
    path = os.path.join(VERIF, "known_findings.json")
    if not os.path.exists(path):
        return []
    with open(path) as f:
        data = json.load(f)
    return [k for k in data.get("findings", []) if k.get("property") == pid and k.get("status", "open") == "open"]


# --------------------------------------------------------------------------- context

@dataclass
class Reject:
    idx: int        # index into the traces list
    reached: int    # number of events matched (0-based count)
    nevents: int


class Ctx:
    def __init__(self, pid, tier="quick", seed=0, keep=False, extension=False):
        self.pid = pid
        self.extension = extension
        self.tier = tier
        self.seed = seed
        self.rng = random.Random(seed)
        self.t0 = time.time()
        self.work = os.path.join(VERIF, ".work", "%s-%d" % (pid, os.getpid()))
        shutil.rmtree(self.work, ignore_errors=True)
        os.makedirs(self.work, exist_ok=True)
        self.keep = keep
        self.states = 0
        self.transitions = 0
        self.traces_ok = 0
        self.evaluations = 0
        self.distinct = set()
        self.samples = []
        self.violations = []          # list of dicts
        self.known_seen = {}          # fingerprint -> count
        self.known = load_known(pid)
        self.coverage_actions = {}
        self.disagreements_checked = 0
        self.exhaustive = None
        self.extra = {}
        self.assumptions = []
        self.mc_runs = []
        self.notes = []
        self.impl_drift = 0

    @property
    def quick(self):
        return self.tier == "quick"

    def pick(self, quick, thorough):
        return quick if self.tier == "quick" else thorough

    def log(self, *a):
        print("[%s %6.1fs]" % (self.pid, time.time() - self.t0), *a, flush=True)

    # ----- TLC: design model checking
    def mc(self, module, cfg, workers=None, args=(), timeout=3600, env=None, must_pass=True, coverage=True, label=None, props=()):
        a = list(args)
        if coverage and "-coverage" not in a:
            a += ["-coverage", "1"]
        r = run_tlc(module, cfg, self.work, workers=workers, env=env, args=a, timeout=timeout, props=props)
        self.states += r.distinct
        self.transitions += r.generated
        for k, v in r.coverage.items():
            key = "%s.%s" % (module, k)
            self.coverage_actions[key] = self.coverage_actions.get(key, 0) + v
        self.mc_runs.append(dict(module=module, cfg=cfg, ok=r.ok, distinct=r.distinct, generated=r.generated,
                                 wall_s=round(r.wall, 2), label=label or "", kind=r.kind))
        self.log("TLC %s/%s: %s, %d generated, %d distinct, %.1fs" % (module, cfg, "ok" if r.ok else "FAIL(" + r.kind + ")", r.generated, r.distinct, r.wall))
        if not r.ok and must_pass:
            if r.kind in ("other", "assert", "timeout") or not r.kind:
                raise MachineryError("TLC failed on %s/%s: %s\n%s" % (module, cfg, r.error, r.out[-3000:]))
        return r

    def require_actions(self, module, names):
        """Vacuity guard: every named action must have been taken at least once in MC."""
        missing = [n for n in names if self.coverage_actions.get("%s.%s" % (module, n), 0) == 0]
        if missing:
            raise MachineryError("vacuity: actions never taken in %s: %s" % (module, missing))

    # ----- TLC: batched trace validation
    def validate(self, module, traces, cfg=None, shard_size=1500, max_shards=None, timeout=3600, count=True, env=None):
        """Validate traces (list of {"cfg":..,"ev":[..]}) against SPECS/<module>.tla.
        Returns list[Reject].  Trace specs follow the batch idiom (see specs/DQueueTrace.tla):
        they read IOEnv.TRACE_FILE, and their POSTCONDITION prints <<"REJECTED", {<<tid, l>>,...}>>."""
        if not traces:
            return []
        cfg = cfg or module + ".cfg"
        shards = [traces[i:i + shard_size] for i in range(0, len(traces), shard_size)]
        procs = []
        rejects = []
        from concurrent.futures import ThreadPoolExecutor

        def one(si):
            sh = shards[si]
            path = os.path.join(self.work, "traces-%s-%d-%s.json" % (module, si, uuid.uuid4().hex[:12]))
            with open(path, "w") as f:
                json.dump(sh, f, separators=(",", ":"))
            e = {"TRACE_FILE": path}
            if env:
                e.update(env)
            r = run_tlc(module, cfg, self.work, workers=1, env=e, timeout=timeout, args=("-checkpoint", "0"),
                        props=("-Dtlc2.tool.queue.IStateQueue=StateDeque",))
            if not self.keep:
                try:
                    os.remove(path)
                except OSError:
                    pass
            return si, r

        nthreads = min(int(os.environ.get('VERIF_SHARDS') or NCPU), len(shards), max_shards or NCPU)
        with ThreadPoolExecutor(nthreads) as ex:
            results = list(ex.map(one, range(len(shards))))
        for si, r in results:
            base = si * shard_size
            self.states += r.distinct
            self.transitions += r.generated
            rej = None
            for v in extract_printed(r.out, "REJECTED"):
                rej = v[1]
            if r.ok:
                if rej:
                    raise MachineryError("trace spec printed REJECTED but TLC ok")
                continue
            if rej is None:
                raise MachineryError("TLC trace validation failed without REJECTED line (%s/%s): %s\n%s" % (module, cfg, r.error, r.out[-3000:]))
            for tid, l in rej:
                rejects.append(Reject(base + tid - 1, l - 1, len(shards[si][tid - 1]["ev"])))
        if count:
            self.traces_ok += len(traces) - len(rejects)
        return sorted(rejects, key=lambda x: x.idx)

    # ----- TLC: behaviour generation (spec -> code)
    def simulate(self, module, cfg, num=200, depth=12, seed=None, timeout=600, args=()):
        """Run `tlc -simulate`; the Sim spec prints <<"BEH", json>> lines.  Returns list of parsed JSON objects (deduplicated)."""
        a = ["-simulate", "num=%d" % num, "-depth", str(depth), "-seed", str(self.seed if seed is None else seed)] + list(args)
        r = run_tlc(module, cfg, self.work, workers=1, args=a, timeout=timeout)
        self.transitions += r.generated
        self.states += r.distinct
        if not r.ok and r.kind not in ("",):
            raise MachineryError("TLC simulate failed on %s/%s: %s\n%s" % (module, cfg, r.error, r.out[-2000:]))
        seen = set()
        out = []
        for v in extract_printed(r.out, "BEH"):
            js = v[1]
            if js in seen:
                continue
            seen.add(js)
            out.append(json.loads(js))
        self.log("TLC simulate %s/%s: %d behaviours, %.1fs" % (module, cfg, len(out), r.wall))
        return out

    # ----- bookkeeping of explored cases
    def note_trace(self, trace, nontrivial=None):
        self.evaluations += 1
        h = hashlib.sha1(json.dumps(trace, sort_keys=True, separators=(",", ":")).encode()).hexdigest()[:16]
        if nontrivial is None:
            kinds = {e.get("e") for e in trace.get("ev", [])} if isinstance(trace, dict) else set()
            nontrivial = len(kinds) >= 2
        if nontrivial:
            self.distinct.add(h)
        if len(self.samples) < 3 or (len(self.samples) < 6 and self.rng.random() < 0.01):
            self.samples.append(trace)

    def note_traces(self, traces):
        for t in traces:
            self.note_trace(t)

    # ----- verdicts
    def violation(self, fingerprint, what, replay_obj):
        """Report an execution of the real code the specification rejects."""
        for k in self.known:
            if k["fingerprint"] == fingerprint:
                if fingerprint not in self.known_seen:
                    print("KNOWN-FINDING: property=%s %s" % (self.pid, k["what"]), flush=True)
                self.known_seen[fingerprint] = self.known_seen.get(fingerprint, 0) + 1
                return False
        for v in self.violations:
            if v["fingerprint"] == fingerprint:
                v["count"] += 1
                return True
        rdir = os.path.join(EVDIR, "replays")
        os.makedirs(rdir, exist_ok=True)
        body = dict(property=self.pid, fingerprint=fingerprint, what=what, seed=self.seed, tier=self.tier, replay=replay_obj)
        h = hashlib.sha1(json.dumps(body, sort_keys=True, default=str).encode()).hexdigest()[:10]
        path = os.path.join(rdir, "%s-%s.json" % (self.pid, h))
        with open(path, "w") as f:
            json.dump(body, f, indent=1, default=str)
        self.violations.append(dict(fingerprint=fingerprint, what=what, path=path, count=1))
        if self.extension:
            print("EXTRA-ALARM module=%s replay=%s" % (self.pid, path), flush=True)
        else:
            print("VIOLATION property=%s replay=%s" % (self.pid, path), flush=True)
        print("  what: %s" % what, flush=True)
        return True

    def selftest_rejects(self, module, good_traces, mutate, cfg=None, n=8, env=None):
        """Binding demonstration: mutated copies of accepted traces must be rejected.
        `mutate(trace, rng)` returns a corrupted deep copy or None."""
        import copy
        muts = []
        for t in good_traces:
            m = mutate(copy.deepcopy(t), self.rng)
            if m is not None and m != t:
                muts.append(m)
            if len(muts) >= n:
                break
        if not muts:
            raise MachineryError("selftest: no mutants produced")
        rej = self.validate(module, muts, cfg=cfg, count=False, env=env)
        ridx = {r.idx for r in rej}
        missed = [i for i in range(len(muts)) if i not in ridx]
        self.disagreements_checked += len(muts)
        if missed:
            raise MachineryError("selftest: corrupted trace accepted by %s: %s" % (module, json.dumps(muts[missed[0]])[:800]))
        self.log("selftest: %d/%d corrupted traces rejected by %s" % (len(muts), len(muts), module))

    # ----- finish
    def finish(self, meta):
        wall = time.time() - self.t0
        cov = dict(
            states=max(self.states, 0),
            transitions=max(self.transitions, 0),
            traces_validated_against_impl=self.traces_ok,
            samples=self.samples[:6] or [{"note": "no real-code traces in this run"}],
            evaluations=max(self.evaluations, 0),
            distinct_nontrivial=len(self.distinct),
            rule=meta.get("rule", "distinct = hash of the recorded event sequence; non-trivial = at least two different event kinds"),
            disagreements_checked=self.disagreements_checked,
            actions=self.coverage_actions,
            model_checking_runs=self.mc_runs,
            known_findings_seen=self.known_seen,
            impl_drift=self.impl_drift,
            violations_detail=[dict(fingerprint=v["fingerprint"], what=v["what"], replay=v["path"], count=v["count"]) for v in self.violations],
        )
        if self.exhaustive is not None:
            cov["exhaustive"] = bool(self.exhaustive)
        cov.update(self.extra)
        # keep schema-typed keys well-typed whatever a property module put into ctx.extra
        if "exhaustive" in cov and not isinstance(cov["exhaustive"], bool):
            cov["exhaustive_detail"] = cov["exhaustive"]
            cov["exhaustive"] = bool(self.exhaustive) if self.exhaustive is not None else bool(cov["exhaustive_detail"])
        for k in ("states", "transitions", "traces_validated_against_impl", "evaluations", "distinct_nontrivial", "disagreements_checked"):
            if not isinstance(cov.get(k), int) or isinstance(cov.get(k), bool):
                cov[k + "_detail"] = cov.get(k)
                cov[k] = int(getattr(self, {"traces_validated_against_impl": "traces_ok"}.get(k, k), 0) or 0) if not isinstance(getattr(self, {"traces_validated_against_impl": "traces_ok"}.get(k, k), 0), set) else len(self.distinct)
        if not isinstance(cov.get("samples"), list) or not cov["samples"]:
            cov["samples"] = [{"note": "no samples recorded"}]
        if not isinstance(cov.get("rule"), str):
            cov["rule"] = str(cov.get("rule"))
        cov["states"] = max(1, cov["states"]); cov["transitions"] = max(1, cov["transitions"])
        ev = dict(
            property_id=self.pid,
            tier=self.tier,
            seed=int(self.seed),
            level=meta.get("level", "model_checking"),
            coverage=cov,
            assumptions=list(meta.get("assumptions", [])) + self.assumptions,
            wall_s=round(wall, 2),
            violations=len(self.violations),
        )
        evdir = os.path.join(EVDIR, "extras") if self.extension else EVDIR
        os.makedirs(evdir, exist_ok=True)
        path = os.path.join(evdir, "%s.json" % self.pid)
        tmp = path + ".tmp%d" % os.getpid()
        with open(tmp, "w") as f:
            json.dump(ev, f, indent=1, default=str)
        os.replace(tmp, path)
        if not self.keep:
            shutil.rmtree(self.work, ignore_errors=True)
        self.log("done: %d TLC states, %d real traces accepted, %d violations, %d known-finding hits, %.1fs" % (
            self.states, self.traces_ok, len(self.violations), sum(self.known_seen.values()), wall))
        self.summary = dict(module=self.pid, specs=meta.get("specs", []), states=self.states, transitions=self.transitions,
                            traces_validated_against_impl=self.traces_ok, alarms=len(self.violations), wall_s=round(wall, 2))
        return 1 if (self.violations and not self.extension) else 0
