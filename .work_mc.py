import sys, re
sys.path.insert(0,'/verif')
from harness import core
mod, cfg = sys.argv[1], sys.argv[2]
r = core.run_tlc(mod, cfg, '/verif/.work/dbg-'+mod+cfg, workers=6, args=['-coverage','1'])
print(r.ok, r.kind, r.generated, r.distinct, round(r.wall,1))
print(r.error[:300])
if not r.ok:
    for st in r.cex:
        keep = [ln for ln in st.split("\n") if re.match(r"(State|/\\ (str|pos|cfg|last|obs|done|got) )", ln)]
        print("\n".join(k[:400] for k in keep))
    if not r.cex: print(r.out[-3000:])
else: print({k:v for k,v in r.coverage.items() if k[0].isupper()})
