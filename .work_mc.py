import sys
sys.path.insert(0,'/verif')
from harness import core
mod, cfg = sys.argv[1], sys.argv[2]
r = core.run_tlc(mod, cfg, '/verif/.work/dbg-'+mod, workers=6, args=['-coverage','1'])
print(r.ok, r.kind, r.generated, r.distinct, round(r.wall,1))
print(r.error[:3000])
if not r.ok: print(r.out[-6000:])
else: print({k:v for k,v in r.coverage.items() if k[0].isupper()})
