import sys, json
sys.path.insert(0,'/verif')
from harness import core
core.use_repo()
from harness.props import c16, c22
import itertools
ctx = core.Ctx("C16", "quick", 0)
ctx.pick = lambda q,t: 15
# monkeypatch build_traces to nothing, design_check to nothing
c16.build_traces = lambda ctx: []
c16.design_check = lambda ctx: None
try:
    c16.run(ctx)
except Exception as e: print("ERR", str(e)[:600])
print(ctx.extra, ctx.impl_drift, ctx.traces_ok, ctx.violations)
